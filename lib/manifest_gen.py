#!/usr/bin/env python3
"""Regenerates /verif/MANIFEST.json from the table below (run after adding a check)."""
import json, os
VERIF = os.path.dirname(os.path.dirname(os.path.abspath(__file__)))

NOTE = ("Trusted: Coq 8.16.1 kernel (vm_compute, no native_compute), extraction with ExtrOcamlBasic only, ml/driver.ml, "
        "the Rust harness and the cfg(bmwill_anemo_verif) pass-through hooks, the generators/monitors in lib/. No axioms. ")

CLAIMS = {
 "C07": ("Coq theorems (round trip for every message, header order and trailing data; exact byte layout; every strict prefix, "
         "bad preamble, unknown version and unknown status rejected; extensions never travel) about a Gallina model of wire.rs, "
         "bincode and LengthDelimitedCodec; tied to /repo on every run by executing extracted model and rebuilt implementation on the "
         "same generated inputs (prefixes, mutations, malformed), exhaustively for Version::new/StatusCode::new, plus frozen golden vectors.",
         "Rust panic-freedom is exercised with catch_unwind, not proved."),
 "C15": ("Coq theorems: one exact threshold min(configured, 2^32-1) for sender and receiver, delivered iff all four frames fit the smaller "
         "limit and then intact, oversize refused with an error by either end; the documented 'no limit when unconfigured' is refuted in Coq "
         "(witness 8 MiB + 1) and recorded as a known finding; codec-level correspondence around every limit in both directions for both message kinds.",
         "End-to-end confinement to the RPC is exercised by fabric runs, not proved about quinn."),
 "C11": ("Coq theorems: effective deadline = min(default, header); remote can shorten never extend/disable; unparsable = absent; "
         "set_timeout/timeout round trip incl. u64 clamp; parser soundness; cut-off exactly at the deadline; end-to-end outcome table; "
         "tied by differential runs of try_parse_timeout/duration_to_timeout on grammar-generated strings and of both Timeout layers under a paused tokio clock.",
         "tokio timer behaviour is trusted; equality of handler duration and deadline is left unspecified."),
 "C20": ("Coq theorems: the wrapped service is invoked iff the authorizer accepts, a refusal is exactly the authorizer's response, the allow-list authorizer is exact "
         "(listed -> invoke, unlisted -> 404, no sender -> 500), any history of calls decomposes into independent calls; tied by differential runs of the real "
         "RequireAuthorization layer with AllowedPeers and closure authorizers, sequentially and from up to 8 threads through clones.",
         "Authorizers are assumed to be deterministic functions of the request."),
 "C18": ("Coq theorems over all event lists (arrive/finish/fail/cancel, any peers, any limit incl. 0, both modes): gauge <= max, permits conserved, nobody waits while a "
         "permit is free, everything back at quiescence, excess waits or gets 429, peers independent, FIFO progress; tied by replaying event scripts step by step on the "
         "real InflightLimit layer around a gate-controlled service and comparing every observation with the model.",
         "tokio's Semaphore FIFO hand-off is modelled, not proved."),
 "C19": ("Coq theorems about governor's GCRA as used by RateLimit: refused never forwarded, positive and sufficient wait hint (also when the clock is re-read), keys independent, "
         "window bound burst+1+replenishment for every arrival sequence and window; the stated bound burst+replenishment is refuted in Coq (idle key: burst+1 at one instant; "
         "known finding, third-party) and proved for windows whose first arrival finds the key not fully replenished; tied by exact differential runs against governor under its "
         "fake clock, real-time runs of the real layer, and a 200k-request hunt for the (fixed) zero wait-nanos race.",
         "governor internals and the real clock are trusted."),
 "C16": ("Coq theorems about the route table of anemo::Router (exact and catch-all patterns): every table built by any program of route/add_rpc_service/route_layer/merge "
         "calls is conflict-free so at most one route matches; exact/tail/rpc-prefix hits; NotFound exactly when nothing matches (empty and non-'/' routes in particular); "
         "merge preserves service and middleware of both sides; a route layer applies to exactly the routes registered before it; tied by differential runs of the real Router "
         "on random builder programs (incl. rejected ones) and ~40 route strings each.",
         "matchit 0.5.0's radix tree and its panic-freedom are exercised, not proved; ':param' patterns are outside the model."),
 "C17": ("Coq theorems: client and server route expressions agree, every client route lies under the prefix add_rpc_service registers (so C16 delivers it), distinct method "
         "names give distinct routes and the generated match selects the method of the same name; Status <-> Response mapping keeps code, message and other headers; typed call "
         "outcomes for any round-tripping message codecs (Ok only from success statuses, handler errors intact, undecodable payloads -> Unknown); tied by comparing the string "
         "literals of anemo-build's generated token streams on random definitions and by typed calls through build.rs-generated clients/servers behind the real Router.",
         "serde_json/bincode message codecs are assumed to round-trip (explicit hypotheses)."),
 "C04": ("Coq theorems over all operation histories of the active-peer set (one lock => every interleaving is a list): listing duplicate-free, no listed connection closed by "
         "this side (fresh ids), per-peer alternation NewPeer/LostPeer ending in NewPeer iff listed, listing = event log applied to the empty set hence snapshot + later events = "
         "listing, a replaced connection's end never disturbs its replacement; tied by replaying operation sequences on the real ActivePeers with real quinn connections "
         "(exhaustively up to length 4 in the thorough tier) and by 8-thread stress runs linearised through the H4 trace and re-run on the model.",
         "quinn stable-id uniqueness among live connections is assumed."),
 "C05": ("Coq theorems: both ends' tie-break decisions agree for every pair of distinct identities and every arrival order; a finite transition system of the two handshakes, "
         "registrations, failures and close notifications (using exactly the code's tie-break, proved to refine ActivePeers.step) whose reachable set is computed and checked "
         "inside Coq: the survivor is never closed, every maximal schedule terminates (<= 8 steps) with both ends holding the connection dialed by the greater identity; the same system extended by inbound admission (MutualDialLimit.v: a connection limit of 1 at either node, filled by this very pair) still ends with both ends holding one and the same connection in every schedule, the possible survivors per placement are tabulated, and checking the limit once more after the handshake is refuted by a witness schedule; tied by "
         "an exhaustive tie-break comparison, by replaying every maximal schedule on two real ActivePeers sets with real connections, and by simultaneous dials of whole networks "
         "over the fabric under seeded delay/jitter (a quarter of them with such a limit: the implementation's survivor must be one the model allows).",
         "close propagation and handshake completion are quinn's (model steps Notice/Fail/Ready)."),
 "C13": ("Coq theorems about handle_connectivity_check and DialBackoffState for every known-peer table, configuration and result history: only eligible peers are dialed "
         "(High, not self, has address, not connected, not already pending, backoff expired), one pending dial per peer, the outstanding-connection cap, every eligible peer "
         "is dialed when the cap does not bind, deadline = noticed + min(max, k*step) with the u32/Duration clamps, no attempt up to the deadline, address rotation, success "
         "clears the state; tick arithmetic: first check < one period after eligibility, reconnection <= R + min(max,k*step) + 2P; tied by DialBackoffState runs through the "
         "hook and by whole networks over the fabric (tick jitter overridden to 0, peers going down / coming back) whose per-tick dial trace is compared with Dialer.check "
         "driven by the same availability timeline.",
         "timer accuracy, dial failure by connect_timeout and close notification are the runtime's/quinn's."),
 "C09": ("Coq theorems about a network-level model (NetModel.v, big steps run to quiescence): after a quiet period longer than the idle timeout A lists B iff B lists A and every "
         "listed link is uncut; an explicit disconnect removes the peer locally at once with LostPeer(Requested) and, the link permitting, at the other side; a successful dial "
         "lists both ends; requests in flight inside a remote handler change none of this (run w ops = run w (ops without Call)); tied by sequential scripts (dials, disconnects, restarts, partitions, healing, quiet periods, long-polling calls left pending across them) on whole networks over the fabric whose dial results, "
         "listings at quiet points and pairwise RPC reachability are compared with the model / checked by monitors. Partial: the transport hypothesis (close propagation, idle "
         "timeout, keep-alive) is quinn's.",
         "quinn close/idle semantics are assumed (modelled as the Quiesce/Disconnect steps)."),
 "C10": ("Coq theorems: the admission rule (Never -> reject; High/Allowed -> always; others iff no limit or count < limit), the dialer's own limit is never consulted, the count "
         "covers connections of either origin and a disconnect frees one slot, a rejected dialer gets an error and nothing is registered; tied by sequential fabric scripts with "
         "random limits and known-peer tables mutated at run time, every dial result compared with NetModel.v.",
         "simultaneous arrivals are excluded (documented as approximate)."),
 "C03": ("Coq theorems: a pinned dial returns only the pinned identity and it is the party at the address, a wrong answering party leaves no trace, any successful dial returns "
         "the reached party which is listed when the call returns; at handshake level the attributed identity is the pin and an answering party lacking the pinned key is rejected "
         "(under the explicit unforgeability hypothesis); tied by fabric scripts where most dials are pinned (rightly or wrongly) and by an adversary endpoint replaying the "
         "expected certificate. Partial: cryptography is symbolic.",
         "Ed25519/TLS 1.3/X.509 soundness assumed."),
 "C14": ("Coq theorems: a dial succeeds only if the dialer's primary name is the listener's primary or alternate name, disjoint configurations never connect, an adversarial "
         "dialer is rejected unless both its claimed name and its certificate name are accepted; tied by fabric scripts over random (primary, alternate) configurations and by an "
         "adversary choosing SNI and certificate name independently (all 126 combinations in the thorough tier).",
         "rustls SNI resolution and webpki name matching are trusted."),
 "C01": ("Coq theorems on a symbolic model of the verifiers (self as trust anchor, Ed25519 only, validity, usage, names, pin first, handshake signature under the same "
         "certificate's key, client auth mandatory): an attributed identity is always a key the remote proved (explicit unforgeability hypotheses), replayed / re-signed / "
         "non-Ed25519 / expired / malformed / wrong-name certificates are rejected, the identity is a function of the verified (first) certificate only whatever else the presented chain holds; tied by differential runs of "
         "the real verifiers on thousands of concrete certificates, every single-byte mutation of valid ones, and by adversary endpoints on the fabric (15 variants incl. chains carrying the victim's certificate). Partial: cryptography "
         "is assumed, not proved.",
         "ring / rustls / webpki / x509-parser soundness assumed."),
 "C02": ("Coq theorems about one-RPC-per-stream connections (Rpc.v: caller and server processes over FIFO byte pipes, any chunking, any interleaving, any handler completion "
         "order, any number of streams carrying anything): the handler is invoked at most once per stream, on a stream carrying the encoding of a well-formed request the "
         "handler sees exactly that request and the caller gets exactly the response produced for it (through C07's round trip and prefix-rejection theorems), a step of one "
         "stream leaves every other unchanged; tied by trace acceptance (the per-RPC events both ends record through cfg-guarded trace points are replayed on Rpc.v by RpcTrace.erun - proved to be a model run - with the model's own encoder, decoder and the recorded handler table; invocation counts and the response each caller got must agree) and by fabric runs with up to 128 concurrent RPCs in both directions under delay, reordering, duplication and loss, every "
         "result and both servers' request logs checked. Partial: QUIC reliability and ordering are quinn's (model component).",
         "quinn's stream reliability under datagram faults is assumed and exercised."),
 "C06": ("Coq theorems: whatever bytes a stream carries the server keeps reading, starts the handler with a request that really decodes from them, or fails that stream only; "
         "hostile streams change only themselves and honest RPCs on the same connection keep their pairing; the manager leaves its loop only on shutdown; tied by trace acceptance (the victim's recorded manager / handler events are replayed on Shutdown.v, which must accept them and still be in its loop with the same peers) and by an "
         "adversary endpoint with a valid identity performing random / truncated / mutated / oversized requests and every stream-level misbehaviour, unidirectional streams, "
         "datagrams (held open, reset or finished), abrupt closes and hostile answers to the victim's own calls while honest peers run RPCs (panic hook, liveness and correctness monitors). Partial: Rust panic-freedom is exercised, not proved.",
         "panic-freedom of the transcribed Rust functions is exercised only."),
 "C12": ("Coq theorems on Rpc.v extended with abandonment (reset of the send half, stop of the receive half, possible in every caller state): once noticed, the handler is "
         "dropped and none ever starts, a request given up while it still waits for the service's readiness (state SQueued, poll_ready back-pressure) is never handed to the handler, closed streams are absorbing, every abandoned open stream has an enabled closing step, at server quiescence every abandoned stream is "
         "closed (no credit leak), siblings are untouched; tied by trace acceptance of both ends' per-RPC events on Rpc.v (abandonment = Abandon then NoticeStop / NoticeReset; every abandoned stream must end closed at the accepting side) over fabric runs abandoning 3-8x the concurrent-stream limit of calls at instants sweeping the whole exchange, "
         "with handler start/drop counters, live siblings and fresh RPCs afterwards, and by runs against a service behind a concurrency limit (calls abandoned while queued never reach the handler). Partial: QUIC stream-state and credit accounting are quinn's.",
         "quinn stream credit accounting is a validated model component."),
 "C08": ("Coq theorems on a transition system of the manager loop, handlers, API calls and shutdown(): the shutdown sequence never gets stuck and takes at most meas(s) steps, "
         "the active-peer set is empty when the cleanup is reached, afterwards no peers / handlers / handshakes remain and every API call ever issued has been answered, late "
         "calls fail at once, the mailbox is bounded (a call issued while it is full waits for room, is admitted oldest first, never holds the manager up, and fails with the rest if the manager finishes first), at most one shutdown request is accepted, and no schedule - including task cancellation by runtime teardown at any moment - leads to a panic "
         "(true of the repaired code: two teardown defects were found, reproduced on the pinned tree and fixed by fix: commits); tied by trace acceptance - the manager / handler / API events recorded by cfg-guarded trace points in every fabric run are replayed on the model (ShutdownTrace.trun, one model step per event, proved), which must accept them, end in MDone and agree with the implementation on peers, LostPeer count and answered calls - over fabric runs shutting a network down "
         "(explicitly, twice concurrently, or by dropping the last handle) with RPCs, dials and API calls in flight, and by real-time runtime-teardown runs on a multi-thread "
         "runtime under a watchdog. Partial: tokio's scheduling and runtime-drop behaviour are the runtime's.",
         "user handlers are assumed cancellable and panic-free; tokio runtime behaviour is trusted."),
}

def main():
    props = [json.loads(l) for l in open(os.path.join(VERIF, "properties.jsonl"))]
    pending = {}
    pf = os.path.join(VERIF, "lib", "not_applicable.json")
    if os.path.exists(pf):
        pending = json.load(open(pf))
    checks, na = [], []
    for p in props:
        i = p["id"]
        if i in CLAIMS:
            text, extra = CLAIMS[i]
            checks.append(dict(
                property_id=i, quick_cmd="./check %s --tier quick" % i, thorough_cmd="./check %s --tier thorough" % i,
                evidence_file="/verif/evidence/%s.json" % i, replay_cmd_template="./check %s --replay {path}" % i,
                engine="coq-proof+correspondence",
                level_claimed=dict(category="proof", text=text, design_ref="DESIGN.md section 5, " + i),
                level_note=NOTE + extra,
                technique="machine-checked proof in Coq (Rocq) of a Gallina model + executed model/implementation correspondence"))
        else:
            na.append(dict(property_id=i, reason=pending.get(i, "check under construction (DESIGN.md section 9 build order); not claimed yet")))
    m = dict(version=1, setup_cmd="sh setup.sh",
             hooks=dict(guard="bmwill_anemo_verif",
                        enable='RUSTFLAGS="--cfg bmwill_anemo_verif" (set by the checks when they build /verif/harness against /repo)',
                        baseline_off_cmd="cd /repo && (cargo nextest run --workspace --no-fail-fast --test-threads 8 --offline || cargo test --workspace --no-fail-fast --offline)",
                        source_commits=json.load(open(os.path.join(VERIF, "lib", "hook_commits.json"))), add_only=True),
             engines=[dict(name="coq-proof+correspondence", path="/verif/check", serves_properties=sorted(CLAIMS),
                           kind_free_text="Coq 8.16.1 theorems over hand-written Gallina models (coq/); extracted OCaml model driver (ml/) vs Rust harness (harness/) differential correspondence; python orchestration (lib/)")],
             checks=checks, not_applicable=na,
             notes="See DESIGN.md. Evidence level is 'proof'; correspondence statistics are reported alongside the proof obligations.")
    json.dump(m, open(os.path.join(VERIF, "MANIFEST.json"), "w"), indent=1)

main()
