"""C01 — peer identity is cryptographically authenticated."""
import json
from common import *
import simnet

KEYS = ["1", "2", "3", "e"]


def gen_spec(rng):
    k = rng.choice(["1", "2", "3", "1", "2", "e"])
    by = rng.choice(["self", "self", "self", "1", "2", "3", "e"])
    if by == k:
        by = "self"
    names = rng.sample(["n10", "n20", "n30"], rng.choice([1, 1, 2]))
    spec = "k=%s by=%s names=%s valid=%s eku=%s wf=%s" % (
        k, by, ",".join(names), rng.choice(["ok", "ok", "ok", "expired", "future"]),
        rng.choice(["none", "none", "server", "client", "both"]), rng.choice(["ok", "ok", "ok", "ok", "trunc", "flip"]))
    # another identity's public key, wrapped like a SubjectPublicKeyInfo, planted in the serial number (in front of the
    # real key) and / or in a private extension (behind it): the identity stays the certificate's own key
    if rng.random() < 0.3:
        spec += " decoy=%s" % rng.choice(["1", "2", "3"])
    if rng.random() < 0.2:
        spec += " decoyext=%s" % rng.choice(["1", "2", "3"])
    return spec


def run(chk):
    quick = chk.tier == "quick"
    chk.rule = ("(D) the three certificate verifiers, peer_id_from_certificate and verify_tls13_signature (through the hooks) on concrete certificates built from symbolic records "
                "(key, signer, algorithm, names, validity, EKU, well-formedness; pinned and unpinned; client and server role) vs Tls.v; every single-byte mutation (3 masks) of valid "
                "certificates; (D) whole networks over the fabric with an adversary endpoint (own identity, replayed certificate with another key, re-signed, ECDSA, expired, wrong "
                "name, malformed, no client certificate, wrong EKU) dialing and being dialed; distinct = case text; non-trivial = all")
    if not chk.prepare():
        return
    cases = []
    n = 250 if quick else 5000
    for i in range(n):
        rng = chk.rng
        spec = gen_spec(rng)
        r = rng.random()
        if r < 0.4:
            accept = rng.sample(["n10", "n20", "n30"], rng.choice([1, 2]))
            cases.append("vserver accept=%s sni=%s pin=%s %s" % (",".join(accept), rng.choice(["n10", "n20", "n30"]), rng.choice(["-", "-", "1", "2", "3"]), spec))
        elif r < 0.65:
            accept = rng.sample(["n10", "n20", "n30"], rng.choice([1, 2]))
            cases.append("vclient accept=%s %s" % (",".join(accept), spec))
        elif r < 0.8:
            cases.append("peerid " + spec)
        else:
            cases.append("hssig which=%d signer=%s scheme=%s mut=%d othermsg=%d %s" % (
                rng.randrange(3), rng.choice(["1", "2", "3"]), rng.choice(["ed", "ed", "ed", "ecdsa", "rsa"]),
                int(rng.random() < 0.2), int(rng.random() < 0.2), spec))
    ci = run_impl("certs", cases)
    cm = run_model(cases)
    for c, a, b in zip(cases, ci, cm):
        chk.evaluations += 1
        t = c.split()
        chk.count(t[0])
        chk.count("%s:%s" % (t[0], a.split()[0]))
        chk.nontriv(c)
        if a.startswith(("PANIC", "CRASH", "TIMEOUT", "HANG")):
            chk.monitor_fail("certificate handling panicked", dict(case=c, impl=a))
            continue
        f = dict(x.split("=", 1) for x in t[1:])
        # model-independent monitors restating C01
        if a.startswith("ok") and t[0] in ("vserver", "vclient"):
            if f["k"] == "e" or f["by"] != "self" or f["valid"] != "ok" or f["wf"] != "ok":
                chk.monitor_fail("a certificate that is non-Ed25519 / not self-signed / outside its validity / malformed was accepted", dict(case=c, impl=a))
            if f.get("pin", "-") != "-" and f["pin"] != f["k"]:
                chk.monitor_fail("a certificate for key %s was accepted under a pin to key %s" % (f["k"], f["pin"]), dict(case=c, impl=a))
        if t[0] == "hssig" and a == "ok":
            if f["signer"] != f["k"] or f["scheme"] != "ed" or f["mut"] == "1" or f["othermsg"] == "1":
                chk.monitor_fail("a handshake signature by another key / scheme / over other data was accepted", dict(case=c, impl=a))
        if t[0] == "peerid" and a.startswith("ok") and a.split()[1] != f["k"]:
            chk.monitor_fail("peer_id_from_certificate returned an identity that is not the certificate's key", dict(case=c, impl=a))
        if a != b:
            chk.disagree(c, a, b, "certs")
    chk.sample(dict(case=cases[0], impl=ci[0], model=cm[0]))
    # mutation sweeps and policy
    extra = ["policy"] + ["mutate accept=n10 sni=n10 k=%s names=n10" % k for k in (["1"] if quick else ["1", "2", "3"])] + ["honest k=%d name=n10" % k for k in (1, 2, 3)]
    ei = run_impl("certs", extra, shards=len(extra))
    for c, a in zip(extra, ei):
        chk.evaluations += 1
        chk.nontriv(c)
        if c == "policy":
            if a != "offer=1mandatory=1schemes=[[2055],[2055],[2055]]":
                chk.monitor_fail("client authentication is not mandatory or a non-Ed25519 handshake signature scheme is advertised: " + a, dict(case=c, impl=a))
        elif c.startswith("mutate"):
            f = dict(x.split("=") for x in a.split())
            chk.count("certificate mutations", int(f.get("total", 0)))
            if f.get("accepted") != f.get("same_identity"):
                chk.monitor_fail("a mutated certificate was accepted with a different identity: " + a, dict(case=c, impl=a))
        elif c.startswith("honest"):
            if a != "ok " + c.split()[1][2:]:
                chk.monitor_fail("the identity of a generated endpoint certificate is not its key: " + a, dict(case=c, impl=a))
    simnet.adversary_scenarios(chk, 12 if quick else 120, "fabric:adversary")
    chk.assumptions += ["Ed25519 unforgeability, TLS 1.3 transcript binding, X.509/DER parsing soundness (ring, rustls, rustls-webpki, x509-parser) are assumed: "
                        "the unforgeability hypotheses are explicit premises (producible_proof) of C01_attributed_identity_is_proven / C01_replay_rejected",
                        "message contents cannot influence the attributed identity: the PeerId extension is written from the connection after decoding (C07: extensions never travel); "
                        "exercised by the 'from='/'seen=' fields of every fabric RPC"]
    if not quick:
        ok, out = coqchk(chk.prop)
        chk.extra["coqchk"] = "ok" if ok else out[-500:]
        if not ok:
            chk.broken.append("coqchk failed or reported axioms")


def replay(chk, path):
    r = json.load(open(path))
    cases = [x["case"].get("case") if isinstance(x["case"], dict) else x["case"] for x in r.get("failing_inputs", [])] + [x["case"] for x in r.get("correspondence_disagreements", [])]
    if not chk.prepare():
        return
    for c in cases:
        if not c:
            continue
        drv = "simnet" if c.startswith("simnet") else "certs"
        log("case: %s\nimpl: %s" % (c[:1500], run_impl(drv, [c])[0][:2500]))
