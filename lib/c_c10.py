"""C10 — inbound admission follows peer affinity and the connection limit."""
import json
from common import *
import simnet


def run(chk):
    quick = chk.tier == "quick"
    chk.rule = ("sequential scripts over 4-5 whole networks on the fabric with random connection limits (none, 0..3) and known-peer tables mutated at run time "
                "(High / Allowed / Never / removed): every explicit dial's result and the listings at quiet periods are compared with NetModel.v (admission rule applied at the "
                "listener with the count of its established connections of either origin); distinct = scenario; non-trivial = all")
    if not chk.prepare():
        return
    w = dict(fault=0.0, restart=0.03, known=0.25, pin=0.0, limits=True)
    recs = simnet.run_netscripts(chk, 30 if quick else 400, [4, 5], lambda r: r.randrange(8, 20), w, "fabric:admission")
    # model-independent monitor: a dial towards a listener without limit and without a Never entry must succeed
    for rec in recs:
        nodes, ops, res = rec["nodes"], rec["ops"], rec["res"]
        nn = len(nodes)
        # the admission rule restated on the implementation's own observations: affinity table as
        # scripted, count = the listener's listing just before the dial
        aff = {}
        listing = {i: [] for i in range(1, nn + 1)}
        for (oi, pos_res, ppos, rpcs) in rec["marks"]:
            op = ops[oi]
            if op[0] == "K":
                if op[3] == "none":
                    aff.pop((op[1], op[2]), None)
                else:
                    aff[(op[1], op[2])] = op[3]
            if op[0] == "R":
                aff = {k: v for k, v in aff.items() if k[0] != op[1]}
            if op[0] == "D" and len(op) == 3:
                a, b = op[1], op[2]
                r = res[pos_res - 1]
                k = aff.get((b, a))
                lim = nodes[b][2]
                count = len(listing[b])
                want = True if k in ("high", "allowed") else False if k == "never" else (lim is None or count < lim)
                if r.startswith("ok") != want:
                    chk.monitor_fail("inbound admission: listener %d (limit %s, %d established connection(s), affinity for dialer %d: %s) %s the connection" %
                                     (b, lim, count, a, k, "admitted" if r.startswith("ok") else "rejected"), dict(case=rec["scenario"][:2500], op_index=oi))
                    break
            listing = {i: [x for x in res[ppos - 1 + (i - 1)].strip("[]").split(",") if x] for i in range(1, nn + 1)}
        never = set()
        for (oi, pos_res, ppos, rpcs) in rec["marks"]:
            op = ops[oi]
            if op[0] == "K":
                if op[3] == "never":
                    never.add((op[1], op[2]))
                else:
                    never.discard((op[1], op[2]))
            if op[0] == "R":
                never = set(x for x in never if x[0] != op[1])
            if op[0] == "D" and len(op) == 3:
                r = res[pos_res - 1]
                a, b = op[1], op[2]
                if (b, a) in never and r.startswith("ok"):
                    chk.monitor_fail("node %d has affinity Never for %d but admitted its connection" % (b, a), dict(case=rec["scenario"][:2000], op_index=oi))
                if nodes[b][2] is None and (b, a) not in never and r.startswith("err"):
                    chk.monitor_fail("node %d has no connection limit and no Never entry for %d but the dial failed" % (b, a), dict(case=rec["scenario"][:2000], op_index=oi))
    chk.assumptions += ["arrivals do not overlap (the code documents the limit as approximate for simultaneous arrivals)",
                        "a peer that reconnects while still connected counts against the limit like any other connection (by design, not alarmed)"]
    if not quick:
        ok, out = coqchk(chk.prop)
        chk.extra["coqchk"] = "ok" if ok else out[-500:]
        if not ok:
            chk.broken.append("coqchk failed or reported axioms")


replay = __import__("c_c09").replay
