"""C10 — inbound admission follows peer affinity and the connection limit."""
import json
from common import *
import simnet


def run(chk):
    quick = chk.tier == "quick"
    chk.rule = ("sequential scripts over 4-5 whole networks on the fabric with random connection limits (none, 0..3) and known-peer tables mutated at run time "
                "(High / Allowed / Never / removed): every explicit dial's result and the listings at quiet periods are compared with NetModel.v (admission rule applied at the "
                "listener with the count of its established connections of either origin); plus nodes at or over their own limit whose explicit and background (High-affinity) dials must still go out; distinct = scenario; non-trivial = all")
    if not chk.prepare():
        return
    w = dict(fault=0.0, restart=0.03, known=0.25, pin=0.0, limits=True)
    recs = simnet.run_netscripts(chk, 30 if quick else 400, [4, 5], lambda r: r.randrange(8, 20), w, "fabric:admission")
    # model-independent monitor: a dial towards a listener without limit and without a Never entry must succeed
    for rec in recs:
        nodes, ops, res = rec["nodes"], rec["ops"], rec["res"]
        nn = len(nodes)
        # the admission rule restated on the implementation's own observations: affinity table as
        # scripted, count = the listener's listing just before the dial
        aff = {}
        listing = {i: [] for i in range(1, nn + 1)}
        for (oi, pos_res, ppos, rpcs) in rec["marks"]:
            op = ops[oi]
            if op[0] == "K":
                if op[3] == "none":
                    aff.pop((op[1], op[2]), None)
                else:
                    aff[(op[1], op[2])] = op[3]
            if op[0] == "R":
                aff = {k: v for k, v in aff.items() if k[0] != op[1]}
            if op[0] == "D" and len(op) == 3:
                a, b = op[1], op[2]
                r = res[pos_res - 1]
                k = aff.get((b, a))
                lim = nodes[b][2]
                count = len(listing[b])
                want = True if k in ("high", "allowed") else False if k == "never" else (lim is None or count < lim)
                if r.startswith("ok") != want:
                    chk.monitor_fail("inbound admission: listener %d (limit %s, %d established connection(s), affinity for dialer %d: %s) %s" %
                                     (b, lim, count, a, k, "admitted the connection" if r.startswith("ok") else "should admit the explicit dial from %d, which failed (refused at either end)" % a), dict(case=rec["scenario"][:2500], op_index=oi))
                    break
            listing = {i: [x for x in res[ppos - 1 + (i - 1)].strip("[]").split(",") if x] for i in range(1, nn + 1)}
        never = set()
        for (oi, pos_res, ppos, rpcs) in rec["marks"]:
            op = ops[oi]
            if op[0] == "K":
                if op[3] == "never":
                    never.add((op[1], op[2]))
                else:
                    never.discard((op[1], op[2]))
            if op[0] == "R":
                never = set(x for x in never if x[0] != op[1])
            if op[0] == "D" and len(op) == 3:
                r = res[pos_res - 1]
                a, b = op[1], op[2]
                if (b, a) in never and r.startswith("ok"):
                    chk.monitor_fail("node %d has affinity Never for %d but admitted its connection" % (b, a), dict(case=rec["scenario"][:2000], op_index=oi))
                if nodes[b][2] is None and (b, a) not in never and r.startswith("err"):
                    chk.monitor_fail("node %d has no connection limit and no Never entry for %d but the dial failed" % (b, a), dict(case=rec["scenario"][:2000], op_index=oi))
    background_dials(chk)
    failed_handshakes(chk)
    replacements(chk)
    affinity_matrix(chk)
    chk.assumptions += ["arrivals do not overlap (the code documents the limit as approximate for simultaneous arrivals)",
                        "a peer that reconnects while still connected counts against the limit like any other connection (by design, not alarmed)"]
    if not quick:
        ok, out = coqchk(chk.prop)
        chk.extra["coqchk"] = "ok" if ok else out[-500:]
        if not ok:
            chk.broken.append("coqchk failed or reported axioms")


def background_dials(chk):
    """The limit governs inbound admission only: with the dialing node at (or over) its own connection limit, an
    explicit dial and the background dial of a High-affinity known peer still go out (NetModel: Dial is never
    subject to the dialer's limit, theorem C10_outbound_unlimited)."""
    quick = chk.tier == "quick"
    scen, models, metas = [], [], []
    for i in range(6 if quick else 60):
        rng = chk.rng
        limit = rng.choice([0, 1, 2])
        k = limit + 2                       # peers 1..limit+1 fill the node, peer k is the High one
        cmds = ["seed=%d delay=%d" % (rng.randrange(1 << 30), rng.choice([200, 2000])),
                "node 0 key=10 name=n10 maxconn=%d ctick=1000 ctimeout=500 idle=600000 keepalive=5000" % limit]
        for j in range(1, k + 1):
            cmds.append("node %d key=%d name=n10 idle=600000 keepalive=5000" % (j, 10 + j))
        ops = []
        for j in range(1, limit + 1):
            if rng.random() < 0.5:
                cmds.append("connect 0 %d" % j)
                ops.append("D 100 %d" % j)
            else:
                cmds.append("connect %d 0" % j)
                ops.append("D %d 100" % j)
        cmds += ["sleep 300", "peers 0", "connect 0 %d" % (limit + 1), "sleep 300", "peers 0", "known 0 %d high" % k, "sleep 2600", "peers 0"]
        ops += ["D 100 %d" % (limit + 1), "D 100 %d" % k]
        scen.append("simnet " + " ; ".join(cmds))
        # node 0 is called 100 in the model (0 is not a valid model id); same names, limit only at node 0
        spec = "100:10:-:%d;" % limit + ";".join("%d:10:-:-" % j for j in range(1, k + 1))
        models.append("netmodel %s | %s" % (spec, " / ".join(ops)))
        metas.append((limit, k))
    outs, parsed = simnet.run_scenarios(chk, scen, "fabric:outbound-at-limit")
    for sc, mc, res, mo, (limit, k) in zip(scen, models, parsed, run_model(models), metas):
        if res is None:
            continue
        chk.nontriv(sc)
        final = res[-1].strip("[]").split(",")
        mlast = mo.split(" | ")[-1]
        mlist = dict(x.split(":") for x in mlast.split(" L=")[1].split(";"))["100"].strip("[]").split(",")
        if str(limit + 1) not in final:
            chk.monitor_fail("an explicit dial from a node at its connection limit (%d) did not go through: %s" % (limit, res[-1]), dict(case=sc))
        elif str(k) not in final:
            chk.monitor_fail("the High-affinity known peer %d was not dialed in the background while the node was at its connection limit (%d): %s" % (k, limit, res[-1]), dict(case=sc))
        if sorted(x for x in final if x) != sorted(x for x in mlist if x):
            chk.disagree(sc, "node 0 lists %s" % sorted(final), "NetModel.v: %s" % sorted(mlist), "simnet/netmodel-outbound")


def replacements(chk):
    """A connection that is replaced (the application dials a connected peer again, or that peer dials in again while there
    is room) is still one connection: afterwards the node admits exactly limit-1 further unknown peers."""
    quick = chk.tier == "quick"
    scen, metas, models = [], [], []
    for i in range(6 if quick else 40):
        rng = chk.rng
        limit = rng.choice([2, 2, 3, 4])
        reps = rng.randrange(1, 4)
        cmds = ["seed=%d delay=%d" % (rng.randrange(1 << 30), rng.choice([200, 2000])),
                "node 0 key=10 name=n10 maxconn=%d ctimeout=500 idle=600000 keepalive=5000" % limit]
        for j in range(1, limit + 2):
            cmds.append("node %d key=%d name=n10 idle=600000 keepalive=5000" % (j, 10 + j))
        ops = []
        for r in range(reps + 1):
            if rng.random() < 0.6 or i % 2 == 0:
                cmds += ["connect 0 1", "sleep 300"]
                ops.append("D 100 1")
            else:
                cmds += ["connect 1 0", "sleep 300"]
                ops.append("D 1 100")
        cmds += ["peers 0"]
        for j in range(2, limit + 2):
            cmds += ["connect %d 0" % j, "sleep 300"]
            ops.append("D %d 100" % j)
        cmds += ["peers 0"]
        scen.append("simnet " + " ; ".join(cmds))
        metas.append((limit, reps))
        spec = "100:10:-:%d;" % limit + ";".join("%d:10:-:-" % j for j in range(1, limit + 2))
        models.append("netmodel %s | %s" % (spec, " / ".join(ops)))
    outs, parsed = simnet.run_scenarios(chk, scen, "fabric:replacements-then-arrivals")
    for sc, res, (limit, reps), mo in zip(scen, parsed, metas, run_model(models)):
        if res is None:
            continue
        chk.nontriv(sc)
        chk.count("replacements-before-arrivals", reps)
        cl = [c.strip() for c in sc[len("simnet "):].split(" ; ")][1:]
        arr = [(c, x) for c, x in zip(cl, res) if c.startswith("connect ") and c.endswith(" 0") and not c.startswith("connect 1 ")]
        admitted = [c.split()[1] for c, x in arr if x.startswith("ok")]
        final = sorted(x for x in res[-1].strip("[]").split(",") if x)
        if res[cl.index("peers 0")] != "[1]":
            chk.monitor_fail("after %d dial(s) between node 0 and peer 1 node 0 lists %s" % (reps + 1, res[cl.index("peers 0")]), dict(case=sc))
        elif len(admitted) != limit - 1:
            chk.monitor_fail("limit %d, one connection (replaced %d time(s)): %d of %d unknown arrivals were admitted, exactly %d fit" % (limit, reps, len(admitted), len(arr), limit - 1), dict(case=sc, impl=str(arr)[:600]))
        mlast = mo.split(" | ")[-1]
        mlist = sorted(x for x in dict(x.split(":") for x in mlast.split(" L=")[1].split(";"))["100"].strip("[]").split(",") if x)
        if final != mlist:
            chk.disagree(sc, "node 0 lists %s" % final, "NetModel.v: %s" % mlist, "simnet/netmodel-replacements")


def affinity_matrix(chk):
    """Every affinity against a node that is exactly at its limit (limits 0, 1, 2; unknown peers fill it first): High and
    Allowed dialers are admitted, Never and unknown ones are not - in every run."""
    scen, models, metas = [], [], []
    for limit in (0, 1, 2):
        rng = chk.rng
        cmds = ["seed=%d delay=%d" % (rng.randrange(1 << 30), rng.choice([200, 2000])),
                "node 0 key=10 name=n10 maxconn=%d ctimeout=500 idle=600000 keepalive=5000" % limit]
        ops = []
        for j in range(1, limit + 1):
            cmds += ["node %d key=%d name=n10 idle=600000 keepalive=5000" % (j, 10 + j), "connect %d 0" % j, "sleep 300"]
            ops.append("D %d 100" % j)
        order = ["high", "allowed", "never", "none"]
        rng.shuffle(order)
        want = {}
        changing = []
        for q, aff in enumerate(order):
            j = 20 + q
            cmds.append("node %d key=%d name=n10 idle=600000 keepalive=5000" % (j, 10 + j))
            if aff != "none":
                cmds.append("known 0 %d %s%s" % (j, aff, " addr=none" if aff == "high" else ""))
                ops.append("K 100 %d %s" % (j, aff))
            cmds += ["connect %d 0" % j, "sleep 300", "disconnect %d 0" % j, "sleep 300"]
            ops += ["D %d 100" % j, "X %d 100" % j]
            want[j] = aff in ("high", "allowed")
        # the table changes over time: an entry overwritten in place (Never -> Allowed, Allowed -> Never, Never -> High -> none)
        j = 30
        cmds.append("node %d key=%d name=n10 idle=600000 keepalive=5000" % (j, 10 + j))
        for aff in ("never", "allowed", "never", "high", "none"):
            if aff == "none":
                cmds.append("unknown 0 %d" % j)
            else:
                cmds.append("known 0 %d %s%s" % (j, aff, " addr=none" if aff == "high" else ""))
            ops.append("K 100 %d %s" % (j, aff))
            cmds += ["connect %d 0" % j, "sleep 300", "disconnect %d 0" % j, "sleep 300"]
            ops += ["D %d 100" % j, "X %d 100" % j]
            changing.append(aff in ("high", "allowed"))
        cmds.append("peers 0")
        scen.append("simnet " + " ; ".join(cmds))
        metas.append((limit, order, want))
        spec = "100:10:-:%d;" % limit + ";".join("%d:10:-:-" % j for j in list(range(1, limit + 1)) + [20, 21, 22, 23, 30])
        models.append("netmodel %s | %s" % (spec, " / ".join(ops)))
    outs, parsed = simnet.run_scenarios(chk, scen, "fabric:affinity-at-the-limit")
    for sc, res, (limit, order, want), mo in zip(scen, parsed, metas, run_model(models)):
        if res is None:
            continue
        chk.nontriv(sc)
        cl = [c.strip() for c in sc[len("simnet "):].split(" ; ")][1:]
        mres = mo.split(" | ")
        for j, w in want.items():
            got = res[cl.index("connect %d 0" % j)].startswith("ok")
            chk.count("at-the-limit:%s:%s" % (order[j - 20], "admitted" if got else "refused"))
            if got != w:
                chk.monitor_fail("node at its limit of %d: a dialer with affinity %s was %s" % (limit, order[j - 20], "admitted" if got else "refused"), dict(case=sc))
        got30 = [res[k].startswith("ok") for k, c in enumerate(cl) if c == "connect 30 0"]
        wants30 = [True if a in ("high", "allowed") else False if a == "never" else (limit > len([c for c in cl if c.startswith("connect ") and c.endswith(" 0") and int(c.split()[1]) < 20])) for a in ("never", "allowed", "never", "high", "none")]
        if got30 != wants30:
            chk.monitor_fail("node at its limit of %d, a peer whose table entry is overwritten in place (never, allowed, never, high, removed): its dials were admitted %s, the entries in force require %s" % (limit, got30, wants30), dict(case=sc))
        mdials = [x.split(" L=")[0] for x in mres if x.startswith(("ok", "err"))]
        idials = [("ok100" if res[k].startswith("ok") else "err") for k, c in enumerate(cl) if c.startswith("connect ") and c.endswith(" 0")]
        if [x for x in mdials] != idials:
            chk.disagree(sc, "dial results %s" % idials, "NetModel.v: %s" % mdials, "simnet/netmodel-affinity-matrix")


def failed_handshakes(chk):
    """Arrivals that pass admission but never become established connections (a dialer that completes TLS and then
    cannot be handshaken with) must not count: afterwards the node admits exactly as many unknown peers as its limit."""
    quick = chk.tier == "quick"
    scen, metas, models = [], [], []
    for i in range(4 if quick else 40):
        rng = chk.rng
        limit = rng.choice([1, 2, 3])
        fails = rng.randrange(1, limit + 2)
        cmds = ["seed=%d delay=%d" % (rng.randrange(1 << 30), rng.choice([200, 2000])),
                "node 0 key=10 name=n10 maxconn=%d ctimeout=500 idle=600000 keepalive=5000" % limit]
        for j in range(1, limit + 2):
            cmds.append("node %d key=%d name=n10 idle=600000 keepalive=5000" % (j, 10 + j))
        for f in range(fails):
            cmds += ["adv %d k=%d names=n10 nouni=1" % (20 + f, 70 + f), "advdial %d 0 sni=n10" % (20 + f), "sleep 800"]
        cmds += ["peers 0"]
        for j in range(1, limit + 2):
            cmds += ["connect %d 0" % j, "sleep 300"]
        cmds += ["peers 0"]
        scen.append("simnet " + " ; ".join(cmds))
        metas.append((limit, fails))
        spec = "100:10:-:%d;" % limit + ";".join("%d:10:-:-" % j for j in range(1, limit + 2))
        models.append("netmodel %s | %s" % (spec, " / ".join(["F %d 100" % (50 + f) for f in range(fails)] + ["D %d 100" % j for j in range(1, limit + 2)])))
    outs, parsed = simnet.run_scenarios(chk, scen, "fabric:failed-handshakes-then-admission")
    for sc, res, (limit, fails), mo in zip(scen, parsed, metas, run_model(models)):
        if res is None:
            continue
        chk.nontriv(sc)
        # NetModel.v (FailedArrival is a no-op): dial results of the unknown dialers
        mres = [x.split(" L=")[0] for x in mo.split(" | ")][fails:]
        ires = [("ok100" if x.startswith("ok") else "err") for c, x in zip([c.strip() for c in sc[len("simnet "):].split(" ; ")][1:], res) if c.startswith("connect ") and c.endswith(" 0")]
        if ires != mres:
            chk.disagree(sc, "dial results %s" % ires, "NetModel.v: %s" % mres, "simnet/netmodel-failed-arrivals")
        cl = [c.strip() for c in sc[len("simnet "):].split(" ; ")][1:]
        dials = [x for c, x in zip(cl, res) if c.startswith("connect ") and c.endswith(" 0")]
        adv = [x for c, x in zip(cl, res) if c.startswith("advdial")]
        if any(x == "ok" for x in adv):
            chk.count("adversary-handshake-unexpectedly-completed")
            continue
        got = [x.startswith("ok") for x in dials]
        want = [True] * limit + [False]
        if got != want:
            chk.monitor_fail("after %d arrival(s) that were admitted but never established, a node with limit %d answered %d further unknown dialers with %s (expected %s)" %
                             (fails, limit, limit + 1, ["ok" if g else "err" for g in got], ["ok" if g else "err" for g in want]), dict(case=sc))


replay = __import__("c_c09").replay
