"""C13 — background dialing: who is dialed, how often, and that it succeeds."""
import json
from common import *


def run(chk):
    quick = chk.tier == "quick"
    chk.rule = ("(X/D) DialBackoffState::new/update sequences for (step, max) pairs incl. huge durations vs Dialer.b_update; (D) whole networks over the fabric with the tick jitter "
                "overridden to 0: 1-4 known peers with random affinity and address lists (own address, unreachable ports, another peer's address), peers going down and "
                "coming back (same key, same address) between ticks, 8-40 ticks; per tick the (peer, address) pairs of the dial trace point are compared with Dialer.check driven "
                "by the same availability timeline; when the outstanding-connection cap binds only count and eligibility are compared; a second family holds 2-4 identical always-down peers against a cap of 1-3 with explicit connects pending at chosen ticks (Dialer.check's `outstanding`) and a growing backoff: dials per tick compared; monitors for rotation, too-early and overdue attempts on every trace; distinct = scenario text; non-trivial = all")
    if not chk.prepare():
        return
    cases = []
    vals = [(5_000_000_000, 60_000_000_000), (1, 10), (10_000_000_000, 60_000_000_000), (0, 5), (7, 0), (3 * 10**9, 10**19),
            (18446744073709551615, 18446744073709551615), (10**18, 5 * 10**18 + 3)]
    for _ in range(10 if quick else 200):
        vals.append((chk.rng.randrange(0, 10**10), chk.rng.randrange(0, 10**11)))
    for s, m in vals:
        cases.append("backoff %d %d %d" % (s, m, 15))
    ci = run_impl("activepeers", cases)
    cm = run_model(cases)
    for c, a, b in zip(cases, ci, cm):
        chk.evaluations += 1
        chk.count("backoff")
        chk.nontriv(c)
        if a.startswith(("PANIC", "CRASH", "TIMEOUT", "HANG")):
            chk.monitor_fail("DialBackoffState panicked", dict(case=c, impl=a))
            continue
        t = c.split()
        step, maxb = int(t[1]), int(t[2])
        for k, x in enumerate(a.split(), 1):
            att, d = x.split(":")
            if int(att) != k or int(d) != min(maxb, k * step):
                chk.monitor_fail("backoff after %d failures is %s ns, expected min(max, k*step) = %d" % (k, d, min(maxb, k * step)), dict(case=c, impl=a))
                break
        if a != b:
            chk.disagree(c, a, b, "activepeers/backoff")
    chk.sample(dict(case=cases[0], impl=ci[0], model=cm[0]))
    import simnet
    simnet.c13(chk)
    chk.assumptions += ["tokio's interval ticks at T0 + i*P under the paused clock; quinn dials to a dead address fail by connect_timeout (< P); a graceful shutdown is noticed by the peer within a tick",
                        "the u32 clamp / Duration saturation of the backoff is modelled and proved but cannot be reached by execution (2^32 failures)"]
    if not quick:
        ok, out = coqchk(chk.prop)
        chk.extra["coqchk"] = "ok" if ok else out[-500:]
        if not ok:
            chk.broken.append("coqchk failed or reported axioms")


def replay(chk, path):
    r = json.load(open(path))
    cases = [x["case"]["case"] for x in r.get("failing_inputs", [])] + [x["case"] for x in r.get("correspondence_disagreements", [])]
    if not chk.prepare():
        return
    for c in cases:
        if c.startswith("dialer"):
            log("model: %s\n -> %s" % (c, run_model([c])[0]))
        else:
            drv = "simnet" if c.startswith("simnet") else "activepeers"
            log("case: %s\nimpl: %s" % (c[:1000], run_impl(drv, [c])[0][:2000]))
