"""C02 — RPC delivery integrity, pairing and at-most-once handling."""
import json
from common import *
import simnet


def run(chk):
    quick = chk.tier == "quick"
    chk.rule = ("two whole networks on the fabric, 1-128 concurrent RPCs in both directions (bodies 0 B - 4 MiB, optional large headers, responses of another size, handler "
                "sleeps permuting completion order) under seeded delay, jitter (reordering), duplication and loss; every result, both servers' request logs and the "
                "'from'/'seen' identities are checked; in a third of the runs the ends have (possibly different) frame limits and some responses exceed them; (T) except under datagram loss and with equal limits, the per-RPC events both ends record (H4c trace points) are replayed on Rpc.v by RpcTrace.erun with the recorded handler table: acceptance, handler invocations per stream and every caller's response must agree; distinct = scenario; non-trivial = all")
    if not chk.prepare():
        return
    simnet.c02(chk)
    simnet.c02_twins(chk)
    chk.assumptions += ["QUIC stream reliability and ordering under datagram faults are quinn's (model component: FIFO byte pipes); the fault runs exercise them",
                        "the byte-level tie of encoder and decoder is C07's"]
    if not quick:
        ok, out = coqchk(chk.prop)
        chk.extra["coqchk"] = "ok" if ok else out[-500:]
        if not ok:
            chk.broken.append("coqchk failed or reported axioms")


replay = __import__("c_c09").replay
