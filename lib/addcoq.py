import sys
p='/verif/coq/_CoqProject'
s=open(p).read().rstrip("\n").split("\n")
flags=[l for l in s if l.startswith("-")]
th=[l for l in s if l.startswith("theories/")]
pr=[l for l in s if l.startswith("proofs/")]
pp=[l for l in s if l.startswith("props/")]
for a in sys.argv[1:]:
    d={'theories':th,'proofs':pr,'props':pp}[a.split('/')[0]]
    if a not in d: d.append(a)
open(p,'w').write("\n".join(flags+th+pr+pp)+"\n")
