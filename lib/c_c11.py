"""C11 — request deadline = min(local default, timeout header)."""
import json
from common import *

U64 = 2**64 - 1
MS = 1_000_000


def header_strings(rng, n):
    """Grammar-based header values: digits, signs, spaces, empty, boundaries around 2^64, non-ASCII."""
    fixed = ["", "0", "1", "00", "007", "+", "-", "+0", "+1", "-1", "-0", "++1", "+-1", " 1", "1 ", "1_000", "1e3", "0x10",
             "1.0", "١٢٣", "１２３", "abc", "\x00", "1\x00", "NaN", "inf", str(U64), str(U64 + 1), str(U64 - 1), "+" + str(U64),
             "+" + str(U64 + 1), "0" * 30 + "5", "0" * 25 + str(U64), "0" * 25 + str(U64 + 1), "9" * 19, "9" * 20, "9" * 21,
             "1" + "0" * 19, "1" + "0" * 20, "18446744073709551620", "99999999999999999999999999999999999999",
             str(2**63), str(2**63 - 1), str(2**32), "4294967296", "30000000000", "é", "1é", "٣"]
    out = list(fixed)
    while len(out) < n:
        r = rng.random()
        if r < 0.5:
            nd = rng.choice([1, 2, 5, 10, 18, 19, 20, 21, 25])
            s = "".join(rng.choice("0123456789") for _ in range(nd))
        elif r < 0.7:
            v = rng.choice([U64, U64 + 1, 10**19, 10**20 - 1]) + rng.randrange(-3, 4)
            s = str(v)
        else:
            s = "".join(rng.choice("0123456789+- .eE_xabz\t") for _ in range(rng.randrange(0, 8)))
        if rng.random() < 0.15:
            s = "+" + s
        out.append(s)
    return out


def run(chk):
    quick = chk.tier == "quick"
    chk.rule = ("function level: grammar-generated header strings (incl. 19-21 digit boundaries around 2^64, signs, non-ASCII) "
                "and durations around u64::MAX ns; layer level (paused tokio clock): (direction, default, header, handler duration) "
                "in whole milliseconds with |handler-deadline| >= 1ms; distinct = case text; non-trivial = a deadline exists or the header is unparsable")
    if not chk.prepare():
        return
    cases = ["tparse none"]
    for s in header_strings(chk.rng, 300 if quick else 5000):
        cases.append("tparse " + hx(s.encode()))
    durs = [(0, 0), (0, 1), (30, 0), (1, 999_999_999), (18446744073, 709551614), (18446744073, 709551615), (18446744073, 709551616),
            (18446744074, 0), (2**63, 5), (2**64 - 1, 999_999_999), (18446744072, 999_999_999)]
    for _ in range(50 if quick else 1000):
        durs.append((chk.rng.choice([0, 1, 18446744073, chk.rng.randrange(0, 2**40), chk.rng.randrange(2**33, 2**64)]), chk.rng.randrange(0, 10**9)))
    for s, n in durs:
        cases.append("tfmt %d %d" % (s, n))
    # layers
    nl = 250 if quick else 4000
    hdr_pool = ["none", "none", "garbage", "ms", "ms", "ms", "max", "zero"]
    for i in range(nl):
        rng = chk.rng
        direction = rng.choice(["in", "out"])
        dflt = rng.choice(["none", "ms", "ms"])
        dflt_v = None if dflt == "none" else rng.randrange(1, 200) * MS
        hk = rng.choice(hdr_pool)
        if hk == "none":
            hdr, hv = "none", None
        elif hk == "garbage":
            s = rng.choice(["", "abc", "-5", "1.5", str(U64 + 1), " 7", "+", "9" * rng.randrange(21, 300),
                            "1" * (rng.choice([8, 16, 32, 64, 128, 256]) - 1) + rng.choice(["\u00e9", "\u20ac", "\U0001F600"]) * 2])
            hdr, hv = hx(s.encode()), None
        elif hk == "max":
            hdr, hv = hx(str(U64).encode()), U64
        elif hk == "zero":
            hdr, hv = hx(b"0"), 0
        else:
            hv = rng.randrange(1, 200) * MS
            hdr = hx((rng.choice(["", "+", "00"]) + str(hv)).encode())
        ds = [x for x in (dflt_v, hv) if x is not None]
        e = min(ds) if ds else None
        # handler duration: around the deadline, never within 1ms of it
        if e is None or e > 10**12:
            h = rng.randrange(0, 300) * MS
        else:
            h = max(0, e + rng.choice([-50, -2, -1, 1, 2, 50, 100]) * MS)
            if h == e:
                h = e + MS
        cases.append("tlayer %s %s %s %d" % (direction, "none" if dflt_v is None else str(dflt_v), hdr, h))
    ci = run_impl("timeout", cases)
    cm = run_model(cases)
    for c, a, b in zip(cases, ci, cm):
        chk.evaluations += 1
        t = c.split()
        chk.count(t[0])
        if a.startswith(("PANIC", "CRASH", "TIMEOUT", "HANG", "MISMATCH")):
            chk.monitor_fail("timeout code panicked or its two entry points disagree", dict(case=c, impl=a))
            continue
        if t[0] == "tparse":
            if t[1] != "none":
                s = unhx(t[1]).decode()
                # monitor: an accepted value is a u64 and the string is [+]digits
                if a.startswith("SOME"):
                    v = int(a.split()[1])
                    body = s[1:] if s.startswith("+") else s
                    if not (body.isascii() and body.isdigit() and int(body) == v and v <= U64):
                        chk.monitor_fail("timeout header accepted with a wrong value", dict(case=c, impl=a, header=s))
                    chk.nontriv(c)
                else:
                    chk.nontriv(c)
                chk.count("tparse:" + a.split()[0] + (":" + a.split()[1] if a.startswith("NONE") else ""))
        elif t[0] == "tfmt":
            total = int(t[1]) * 10**9 + int(t[2])
            want = "OK " + hx(str(min(total, U64)).encode())
            if a != want:
                chk.monitor_fail("duration_to_timeout is not the decimal u64-clamped nanoseconds", dict(case=c, impl=a, expected=want))
            chk.nontriv(c)
        elif t[0] == "tlayer":
            direction, dflt, hdr, h = t[1], t[2], t[3], int(t[4])
            hv = None
            if hdr != "none":
                s = unhx(hdr).decode()
                body = s[1:] if s.startswith("+") else s
                if body.isascii() and body.isdigit() and int(body) <= U64:
                    hv = int(body)
            ds = [x for x in (None if dflt == "none" else int(dflt), hv) if x is not None]
            e = min(ds) if ds else None
            if e is not None or hdr != "none":
                chk.nontriv(c)
            chk.count("tlayer:%s:%s:%s" % (direction, "dflt" if dflt != "none" else "nodflt",
                                           "nohdr" if hdr == "none" else "hdr" if hv is not None else "badhdr"))
            # monitor restating the property, independent of the model
            kind, el, handler = a.split()[0], int(a.split()[1]), a.split()[2]
            if e is None or h < e:
                ok = kind == "normal" and el == h and handler == "handler=completed"
            else:
                ok = kind == "cutoff" and el == e and handler == "handler=dropped"
            if not ok:
                chk.monitor_fail("deadline is not min(default, header): handler %dns, default %s, header %r -> %s" % (h, dflt, None if hdr == "none" else unhx(hdr), a),
                                 dict(case=c, impl=a, expected_deadline=e))
            if b == "unspecified":
                continue
        if a != b:
            chk.disagree(c, a, b, "timeout")
    chk.sample(dict(case=cases[5], impl=ci[5], model=cm[5]))
    chk.sample(dict(case=cases[-1], impl=ci[-1], model=cm[-1]))
    chk.assumptions += [
        "tokio timers (1 ms wheel granularity, paused clock) are trusted; cases keep handler duration and deadline >= 1 ms apart and whole ms",
        "the wiring of the layers into Builder::start (both ends' Config timeouts) is exercised by the fabric run (simnet driver), not proved",
    ]
    run_fabric(chk)
    if not quick:
        ok, out = coqchk(chk.prop)
        chk.extra["coqchk"] = "ok" if ok else out[-500:]
        if not ok:
            chk.broken.append("coqchk failed or reported axioms")


def run_fabric(chk):
    """End-to-end part (whole Networks over the in-memory fabric); filled in by simnet."""
    try:
        import simnet
    except ImportError:
        chk.notes.append("fabric part not available in this build")
        return
    simnet.c11(chk)
    simnet.c11_raw(chk)
    simnet.c11_outlayer(chk)


def replay(chk, path):
    r = json.load(open(path))
    cases = [x["case"]["case"] for x in r.get("failing_inputs", [])] + [x["case"] for x in r.get("correspondence_disagreements", [])]
    if not chk.prepare():
        return
    for c, a, b in zip(cases, run_impl("timeout", cases), run_model(cases)):
        log("case:  %s\nimpl:  %s\nmodel: %s" % (c, a, b))
        if a != b and b != "unspecified":
            chk.disagree(c, a, b, "timeout/replay")
