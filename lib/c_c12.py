"""C12 — abandoned RPCs are cancelled remotely and leak nothing."""
import json
from common import *
import simnet


def run(chk):
    quick = chk.tier == "quick"
    chk.rule = ("two whole networks on the fabric with a small concurrent-stream limit (4-16): 3-8x that many RPCs abandoned at instants sweeping the whole exchange "
                "(before transmission, mid-request over a slow link, while the handler sleeps, after completion), interleaved with live calls; the serving side's "
                "started/completed/dropped handler counters, the live calls' results and fresh RPCs in both directions afterwards are checked; abandoned calls may carry far-away timeout headers / defaults; (T) both ends' per-RPC events are replayed on Rpc.v (RpcTrace.erun): acceptance, invocations, responses, and every abandoned stream closed at the accepting side; distinct = scenario; non-trivial = all")
    if not chk.prepare():
        return
    simnet.c12(chk)
    simnet.c12_gated(chk)
    simnet.c12_limited(chk)
    simnet.c12_starved(chk)
    chk.assumptions += ["QUIC stream-state and credit accounting (RESET_STREAM / STOP_SENDING / MAX_STREAMS) are quinn's: a model component of Rpc.v validated by these runs"]
    if not quick:
        ok, out = coqchk(chk.prop)
        chk.extra["coqchk"] = "ok" if ok else out[-500:]
        if not ok:
            chk.broken.append("coqchk failed or reported axioms")


replay = __import__("c_c09").replay
