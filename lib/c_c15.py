"""C15 — message size limits: exact, symmetric, confined; unconfigured = 8 MiB (finding F1)."""
import json
from common import *

MIB8 = 8 * 1024 * 1024


def run(chk):
    quick = chk.tier == "quick"
    chk.rule = ("codec-level sweep: for limits m in a fixed set and None, header-frame and body sizes m-2..m+2 (and pairs "
                "around the limit) for request and response, encode and decode; distinct = distinct (limit,hn,bn); "
                "non-trivial = at least one size within 2 bytes of the effective limit")
    if not chk.prepare():
        return
    limits = [27, 28, 64, 100, 4096, 65536, 1 << 20] + ([] if quick else [1 << 16 | 1, 3 << 20, MIB8, MIB8 + 5])
    cases = []
    for m in limits:
        for d in (-2, -1, 0, 1, 2):
            for which in ("h", "b", "hb"):
                hn = m + d if "h" in which else 27 + chk.rng.randrange(0, 20)
                bn = m + d if "b" in which else chk.rng.randrange(0, 20)
                if hn < 27:
                    continue
                cases.append("framelen2 %d %d %d" % (m, hn, bn))
        for _ in range(4 if quick else 30):
            cases.append("framelen2 %d %d %d" % (m, chk.rng.randrange(27, 2 * m + 30), chk.rng.randrange(0, 2 * m + 3)))
    # unconfigured limit: around 8 MiB
    none_sizes = [0, 1, 4096, MIB8 - 1, MIB8, MIB8 + 1, MIB8 + 2] + ([] if quick else [MIB8 * 2, (1 << 24) + 1])
    for n in none_sizes:
        cases.append("framelen2 none 27 %d" % n)
    for n in (MIB8 - 1, MIB8, MIB8 + 1):
        cases.append("framelen2 none %d 3" % n)
    # configured above the 4-byte length field: clamps to u32::MAX
    cases.append("framelen2 4294967295 27 %d" % (MIB8 + 1))
    cases.append("framelen2 4294967296 27 %d" % (MIB8 + 1))
    cases.append("framelen2 18446744073709551615 %d 0" % (MIB8 + 1))
    ci = run_impl("codec", cases, shards=8)
    cm = run_model(cases)
    for c, a, b in zip(cases, ci, cm):
        chk.evaluations += 1
        _, lim, hn, bn = c.split()
        hn, bn = int(hn), int(bn)
        eff = None if lim == "none" else min(int(lim), 2**32 - 1)
        chk.count("limit:" + ("none" if eff is None else "<=4096" if eff <= 4096 else ">4096"))
        near = eff if eff is not None else MIB8
        if min(abs(hn - near), abs(bn - near)) <= 2:
            chk.nontriv(c)
        # model-independent monitors restating the property
        if "PANIC" in a or "CRASH" in a or "TIMEOUT" in a or a.startswith("HANG"):
            chk.monitor_fail("codec panicked / crashed", dict(case=c, impl=a))
            continue
        if "!content" in a:
            chk.monitor_fail("message accepted but content not intact (truncation?)", dict(case=c, impl=a))
        parts = dict(zip(["req.enc", "req.dec", "resp.enc", "resp.dec"], [x.split("=")[1] for x in a.split() if "=" in x]))
        if eff is not None:
            want = "OK" if hn <= eff and bn <= eff else "ERR:toobig"
            for k, v in parts.items():
                if v != want:
                    chk.monitor_fail("configured limit not exact/symmetric: %s gave %s, expected %s" % (k, v, want), dict(case=c, impl=a))
        else:
            for k, v in parts.items():
                if v != "OK":
                    # documented: no limit when unconfigured
                    big = max(hn, bn)
                    cls = "unconfigured-limit-is-8MiB" if big > MIB8 else None
                    chk.monitor_fail("no maximum configured but a %d-byte frame was refused (%s=%s)" % (big, k, v), dict(case=c, impl=a), cls=cls)
        if a != b:
            chk.disagree(c, a, b, "codec/framelen2")
    chk.sample(dict(case=cases[0], impl=ci[0], model=cm[0]))
    chk.sample(dict(case=cases[-4], impl=ci[-4], model=cm[-4]))
    # model-only sanity of rpc_size_outcome against the size rule (the end-to-end tie is the fabric run)
    chk.assumptions += [
        "end-to-end confinement (error for that RPC only, no hang, connection stays usable, follow-up RPC succeeds) is exercised by fabric runs with the four placements of the limit; "
        "the codec-level tie covers both directions of both message kinds",
        "tokio-util LengthDelimitedCodec is modelled (Wire.enc_frame/dec_frame, eff_max), tied by the executed correspondence",
    ]
    import simnet
    simnet.c15(chk)
    if not quick:
        ok, out = coqchk(chk.prop)
        chk.extra["coqchk"] = "ok" if ok else out[-500:]
        if not ok:
            chk.broken.append("coqchk failed or reported axioms")


def replay(chk, path):
    r = json.load(open(path))
    cases = [x["case"]["case"] for x in r.get("failing_inputs", [])] + [x["case"] for x in r.get("correspondence_disagreements", [])]
    if not chk.prepare():
        return
    for c, a, b in zip(cases, run_impl("codec", cases), run_model(cases)):
        log("case:  %s\nimpl:  %s\nmodel: %s" % (c, a, b))
        if a != b:
            chk.disagree(c, a, b, "codec/replay")
