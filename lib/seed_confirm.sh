#!/bin/bash
# Confirm a seeded breaking change delivered by a sub-agent in its scratch worktree, then store it.
#   lib/seed_confirm.sh <worktree> <seed-id> '<demo cargo test command>'
# Steps (all in the scratch worktree, never in /repo):
#   1. reset the worktree, apply OUT/patch.diff: the workspace test suite must pass (demo absent)
#   2. apply OUT/demo.diff as well: the demo command must FAIL
#   3. revert OUT/patch.diff, keep the demo: the demo command must PASS
# On success the deliverables are copied to /verif/seeded/<seed-id>/ with a confirm.log.
set -u
W=$1; ID=$2; DEMO=$3
export CARGO_NET_OFFLINE=true
cd "$W" || exit 2
LOG=$W/OUT/confirm.log; : > "$LOG"
git checkout -q -- . ; git clean -fdq -e OUT -e target
git apply OUT/patch.diff || { echo "patch does not apply"; exit 1; }
echo "== 1. test suite with the change (demo absent)" | tee -a "$LOG"
if cargo test --workspace --no-fail-fast --offline >> "$LOG" 2>&1; then echo "suite: pass" | tee -a "$LOG"; else echo "suite: FAIL" | tee -a "$LOG"; grep -E "^test .* FAILED|panicked" "$LOG" | head; exit 1; fi
git apply OUT/demo.diff || { echo "demo does not apply"; exit 1; }
echo "== 2. demo with the change" | tee -a "$LOG"
if bash -c "$DEMO" >> "$LOG" 2>&1; then echo "demo with change: pass (BAD)" | tee -a "$LOG"; exit 1; else echo "demo with change: fails (expected)" | tee -a "$LOG"; fi
git apply -R OUT/patch.diff || exit 1
echo "== 3. demo without the change" | tee -a "$LOG"
if bash -c "$DEMO" >> "$LOG" 2>&1; then echo "demo without change: pass (expected)" | tee -a "$LOG"; else echo "demo without change: FAILS (BAD)" | tee -a "$LOG"; exit 1; fi
mkdir -p /verif/seeded/$ID
cp OUT/patch.diff OUT/demo.diff OUT/meta.json /verif/seeded/$ID/
grep -E "^==|^suite|^demo|test result" "$LOG" > /verif/seeded/$ID/confirm.log
echo "stored /verif/seeded/$ID"
