"""C14 — networks with different names never connect."""
import json
from common import *
import simnet


def run(chk):
    quick = chk.tier == "quick"
    chk.rule = ("the whole matrix dialer (primary, alternate) x listener (primary, alternate) over names {10,20,30} with plain and identity-naming dials in both directions, then sequential scripts over 3-4 whole networks on the fabric with random (primary, optional alternate) names; every dial's result is compared with "
                "NetModel.v (dialer's primary must be accepted by the listener); adversary scenarios choose the claimed name (SNI) and the certificate name independently; "
                "distinct = scenario; non-trivial = all")
    if not chk.prepare():
        return
    w = dict(fault=0.0, restart=0.03, known=0.02, pin=0.1, names=True)
    # the whole name matrix, in every run: dialer (primary, alternate) x listener (primary, alternate) over two primaries and
    # three alternates, each pair dialed plainly and with the listener's identity named, in both directions
    fixed = []
    alts = lambda p: [None] + [x for x in (10, 20, 30) if x != p]
    for p in (10, 20):
        for a in alts(p):
            for q in (10, 20):
                for b in alts(q):
                    fixed.append(({1: (p, a, None), 2: (q, b, None)}, [("D", 1, 2), ("X", 1, 2), ("D", 1, 2, 2), ("X", 2, 1), ("D", 2, 1, 1), ("X", 2, 1), ("D", 2, 1), ("Q",)]))
    recs = simnet.run_netscripts(chk, 30 if quick else 400, [3, 4], lambda r: r.randrange(6, 14), w, "fabric:names", fixed=fixed)
    for rec in recs:
        nodes, ops, res = rec["nodes"], rec["ops"], rec["res"]
        for (oi, pos_res, ppos, rpcs) in rec["marks"]:
            op = ops[oi]
            if op[0] == "D":
                a, b = op[1], op[2]
                accepted = nodes[a][0] in (nodes[b][0], nodes[b][1])
                r = res[pos_res - 1]
                if r.startswith("ok") and not accepted:
                    chk.monitor_fail("node %d (name %s) connected to node %d which accepts only %s" % (a, nodes[a][0], b, (nodes[b][0], nodes[b][1])), dict(case=rec["scenario"][:2000], op_index=oi))
    simnet.adversary_c14(chk)
    chk.assumptions += ["a dialer claiming the listener's primary while holding a certificate for the listener's alternate name is admitted by design (migration case); not alarmed",
                        "rustls SNI resolution and webpki name matching are trusted"]
    if not quick:
        ok, out = coqchk(chk.prop)
        chk.extra["coqchk"] = "ok" if ok else out[-500:]
        if not ok:
            chk.broken.append("coqchk failed or reported axioms")


replay = __import__("c_c09").replay
